import Hpl.Spec.PrintToks
/-! The printed form of a property at token level (annotations, scope, pattern, time bound) and the property trees that have
    one. Used by C06 / C18 (`Props/C06c`). The text of the number in a time bound is a parameter (`fmt`): the tree stores
    the value, and which decimal spelling the printer chooses does not matter as long as the parser reads that value back. -/
namespace Hpl

def RawSimple.toks (s : RawSimple) : List Tok :=
  [wordT s.name] ++ (match s.alias with | some a => [wordT "as", wordT a] | none => []) ++
  (match s.pred with | some r => [symT "{"] ++ r.toks ++ [symT "}"] | none => [])

/-- alternatives separated by `or` -/
def altsToks : List RawSimple → List Tok
  | [] => []
  | [s] => s.toks
  | s :: rest => s.toks ++ [wordT "or"] ++ altsToks rest

def RawEvent.toks : RawEvent → List Tok
  | .simple s => s.toks
  | .disj alts => [symT "("] ++ altsToks alts ++ [symT ")"]

def unitText : TimeUnit → String | .s => "s" | .ms => "ms"

/-- the unit is written right after the number (`100ms`): a word token glued to a word character -/
def unitTok (u : TimeUnit) : Tok := ⟨.word, unitText u, true, true⟩

def timeToks (fmt : Rat → String) : Option (Rat × TimeUnit) → List Tok
  | none => []
  | some (q, u) => [wordT "within", mkTok .num (fmt q), unitTok u]

def mdToks : List (String × String) → List Tok
  | [] => []
  | (k, v) :: rest => [symT "#", wordT k, symT ":", (if k == "id" then wordT v else mkTok .str v)] ++ mdToks rest

def optToks : Option RawEvent → List Tok
  | some e => e.toks
  | none => []

def scopeToks (p : RawProperty) : List Tok :=
  match p.scopeKind with
  | .global => [wordT "globally"]
  | .after => [wordT "after"] ++ optToks p.activator
  | .until_ => [wordT "until"] ++ optToks p.terminator
  | .afterUntil => [wordT "after"] ++ optToks p.activator ++ [wordT "until"] ++ optToks p.terminator

def patternToks (p : RawProperty) : List Tok :=
  match p.patternKind with
  | .existence => [wordT "some"] ++ p.behaviour.toks
  | .absence => [wordT "no"] ++ p.behaviour.toks
  | .response => optToks p.trigger ++ [wordT "causes"] ++ p.behaviour.toks
  | .prevention => optToks p.trigger ++ [wordT "forbids"] ++ p.behaviour.toks
  | .requirement => p.behaviour.toks ++ [wordT "requires"] ++ optToks p.trigger

def RawProperty.toks (fmt : Rat → String) (p : RawProperty) : List Tok :=
  mdToks p.metadata ++ scopeToks p ++ [symT ":"] ++ patternToks p ++ timeToks fmt p.maxTime

/-! ### which property trees the parser can produce -/

def RawSimple.printable (s : RawSimple) : Bool :=
  isChannelName s.name && (match s.alias with | some a => isCName a | none => true) &&
  (match s.pred with | some r => r.printable | none => true)

def RawEvent.printable : RawEvent → Bool
  | .simple s => s.printable
  | .disj alts => decide (2 ≤ alts.length) && alts.all RawSimple.printable

/-- the first word of an event in pattern position must not read as `some` / `no` -/
def RawEvent.headOk : RawEvent → Bool
  | .simple s => s.name != "some" && s.name != "no"
  | .disj _ => true

def timeOk (fmt : Rat → String) : Option (Rat × TimeUnit) → Bool
  | none => true
  | some (q, _) => match decimalValue (fmt q) with
      | some (.int i) => (i : Rat) == q
      | some (.flt r) => r == q
      | _ => false

def mdOk : List (String × String) → Bool
  | [] => true
  | (k, v) :: rest => ((k == "id" && isCName v) || k == "title" || k == "description") && mdOk rest

def optPrintable : Option RawEvent → Bool
  | some e => e.printable
  | none => true

def RawProperty.printable (fmt : Rat → String) (p : RawProperty) : Bool :=
  mdOk p.metadata && timeOk fmt p.maxTime && p.behaviour.printable && optPrintable p.activator && optPrintable p.terminator &&
  optPrintable p.trigger &&
  (match p.scopeKind with
   | .global => p.activator.isNone && p.terminator.isNone
   | .after => p.activator.isSome && p.terminator.isNone
   | .until_ => p.activator.isNone && p.terminator.isSome
   | .afterUntil => p.activator.isSome && p.terminator.isSome) &&
  (match p.patternKind with
   | .existence | .absence => p.trigger.isNone
   | .response | .prevention => (match p.trigger with | some t => t.headOk | none => false)
   | .requirement => p.trigger.isSome && p.behaviour.headOk)

end Hpl
