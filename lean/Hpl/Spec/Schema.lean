import Hpl.Model.Schema
import Hpl.Model.Query
/-!
# Spec: what it means for the references of a predicate to be valid in a schema (C17, C04)

Pure navigation of the declared field tree (`denote`), and the three conditions of the statement for every accessor node
of the tree (including those inside index expressions, range bounds, set members, function arguments, quantifiers):
the path resolves, the inferred type set meets the declared type, a literal index into a fixed-length array is in bounds.
-/
namespace Hpl

/-- field or constant `name` of a message token -/
def tokFieldOf (t : TyTok) (name : String) : Option TyTok :=
  match t with
  | .msg _ fs cs => (fs.find name).or (cs.find name)
  | _ => none

def tokElemOf : TyTok → Option TyTok
  | .arr _ sub _ => some sub
  | _ => none

/-- the declared token a reference path denotes -/
def denote (this : TyTok) (vars : VarTypes) : Expr → Option TyTok
  | .this _ => some this
  | .var _ x => lookupTok x vars
  | .field _ m name => (denote this vars m).bind (tokFieldOf · name)
  | .index _ a _ => (denote this vars a).bind tokElemOf
  | _ => none

def isAccessor : Expr → Bool
  | .field .. | .index .. => true
  | _ => false

/-- a literal index into a fixed-length array is within bounds -/
def InBounds (this : TyTok) (vars : VarTypes) : Expr → Prop
  | .index _ a (.lit _ _ v) => ∀ n sub len, denote this vars a = some (.arr n sub len) → containsIndex len v = .ok true
  | _ => True

/-- one accessor node is valid in the schema -/
def RefOK (this : TyTok) (vars : VarTypes) (a : Expr) : Prop :=
  (∃ t, denote this vars a = some t ∧ a.ty &&& t.ty ≠ 0) ∧ InBounds this vars a

/-- every field path of the tree, at any position, is valid in the schema -/
def RefsOK (this : TyTok) (vars : VarTypes) (e : Expr) : Prop :=
  ∀ a ∈ e.preorder, isAccessor a = true → RefOK this vars a
def RefsOKL (this : TyTok) (vars : VarTypes) (es : ExprList) : Prop :=
  ∀ a ∈ es.preorder, isAccessor a = true → RefOK this vars a

/-- the tokens references start from are message tokens -/
def BaseMsgs (this : TyTok) (vars : VarTypes) : Prop :=
  this.isMsg = true ∧ ∀ x t, lookupTok x vars = some t → t.isMsg = true

def PredRefsOK (this : TyTok) (vars : VarTypes) : Pred → Prop
  | .expr e => RefsOK this vars e
  | _ => True

/-- walking the declared tree along a dotted path of field names -/
def walk : TyTok → List String → Option TyTok
  | t, [] => some t
  | .msg _ fs _, n :: rest => (fs.find n).bind (walk · rest)
  | _, _ :: _ => none

end Hpl

namespace Hpl

def FieldList.names : FieldList → List String
  | .nil => []
  | .cons n _ rest => n :: rest.names

mutual
/-- mapping keys are unique at every level (Python dicts) -/
def TyTok.WF : TyTok → Prop
  | .prim .. => True
  | .arr _ sub _ => sub.WF
  | .msg _ fs cs => FieldList.WF fs ∧ FieldList.WF cs
def FieldList.WF : FieldList → Prop
  | .nil => True
  | .cons n t rest => n ∉ rest.names ∧ t.WF ∧ rest.WF
end

def joinDots : List String → String
  | [] => ""
  | [n] => n
  | n :: rest => n ++ "." ++ joinDots rest

/-- walking a field list along a non-empty path of field names -/
def walkL (fs : FieldList) : List String → Option TyTok
  | [] => none
  | n :: rest => (fs.find n).bind (walk · rest)

/-- the events of a property with the channel and predicate of each simple event -/
def Event.simplePreds : Event → List (String × Pred)
  | .simple n _ p => [(n, p)]
  | .disj a b => a.simplePreds ++ b.simplePreds

end Hpl
