import Hpl.Model.Query
/-! Declarative scoping judgement of C02: which aliases each event position may reference / must not re-bind,
    given HPL's binding order. Independent of the algorithm of `sanity_check`. -/
namespace Hpl

/-- an event is well-placed under the available aliases: it references only available aliases and re-binds none -/
def Bound (e : Event) (avail : List String) : Prop :=
  (∀ r ∈ e.freeRefs, r ∈ avail) ∧ (∀ a ∈ e.aliases, a ∉ avail)

def actAliases (s : Scope) : List String :=
  match s.activator with | some a => a.aliases | none => []

/-- aliases visible to each pattern position: trigger before behaviour, behaviour before trigger for `requires` -/
def PatternScoped (p : Pattern) (avail : List String) : Prop :=
  match p.kind, p.trigger with
  | .absence, _ | .existence, _ => Bound p.behaviour avail
  | .requirement, some t => Bound p.behaviour avail ∧ Bound t (p.behaviour.aliases ++ avail)
  | .response, some t | .prevention, some t => Bound t avail ∧ Bound p.behaviour (t.aliases ++ avail)
  | _, none => False

/-- (i) every reference is bound earlier in the chain, (ii) no alias is bound twice along it; the activator sees
    nothing, the terminator sees only the activator's aliases -/
def WellScoped (s : Scope) (p : Pattern) : Prop :=
  (∀ a, s.activator = some a → ∀ r ∈ a.freeRefs, False) ∧
  PatternScoped p (actAliases s) ∧
  (∀ q, s.terminator = some q → Bound q (actAliases s))

end Hpl

namespace Hpl
/-! ### executable decider (equivalence with `WellScoped` proved in `Hpl/Props/C02.lean`) -/
def boundB (e : Event) (avail : List String) : Bool :=
  e.freeRefs.all (fun r => avail.contains r) && e.aliases.all (fun a => !avail.contains a)

def patternScopedB (p : Pattern) (avail : List String) : Bool :=
  match p.kind, p.trigger with
  | .absence, _ | .existence, _ => boundB p.behaviour avail
  | .requirement, some t => boundB p.behaviour avail && boundB t (p.behaviour.aliases ++ avail)
  | .response, some t | .prevention, some t => boundB t avail && boundB p.behaviour (t.aliases ++ avail)
  | _, none => false

def wellScopedB (s : Scope) (p : Pattern) : Bool :=
  (match s.activator with | some a => a.freeRefs.isEmpty | none => true) &&
  patternScopedB p (actAliases s) &&
  (match s.terminator with | some q => boundB q (actAliases s) | none => true)
end Hpl
