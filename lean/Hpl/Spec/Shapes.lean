import Hpl.Model.Ast
import Hpl.Generated.Tables
/-! Shape predicates of C09: an expression returned by `split_and` is *indivisible*: not a conjunction, a negated
    disjunction, a negated implication, a double negation, a negated existential quantifier or a universal quantifier
    over a conjunction. -/
namespace Hpl

def Expr.isConj : Expr → Bool | .bin _ op _ _ => op == Gen.AND_OPERATOR | _ => false
def Expr.isDisjn : Expr → Bool | .bin _ op _ _ => op == Gen.OR_OPERATOR | _ => false
def Expr.isImpl : Expr → Bool | .bin _ op _ _ => op == Gen.IMPLIES_OPERATOR | _ => false
def Expr.isNeg : Expr → Bool | .un _ op _ => op == Gen.NOT_OPERATOR | _ => false
def Expr.isExists : Expr → Bool | .quant _ .some _ _ _ => true | _ => false

def indivisible : Expr → Bool
  | .bin _ op _ _ => op != Gen.AND_OPERATOR
  | .un _ op a => !(op == Gen.NOT_OPERATOR && (a.isDisjn || a.isImpl || a.isNeg || a.isExists))
  | .quant _ .all _ _ b => !b.isConj
  | _ => true

end Hpl
