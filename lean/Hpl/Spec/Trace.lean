import Hpl.Model.Ast
import Hpl.Model.Query
/-! Reference trace semantics of HPL properties (docs/lang.md; `docs/semantics.md` is "TBD" in the repository):
    satisfaction of a property by a finite timed message trace, with alias bindings and time bounds, for two
    admissible readings of after–until re-activation. Predicate satisfaction is a parameter (`holds`): nothing here,
    nor `canonical_form`, looks inside a predicate. -/
namespace Hpl

structure Msg where
  time : Rat
  topic : String
  data : Nat            -- abstract payload
deriving DecidableEq, Repr

/-- alias bindings, newest first -/
abbrev TEnv := List (String × Msg)

section
variable (holds : Pred → TEnv → Msg → Bool)

/-- all environments under which `m` matches the event (relational reading, executable): a simple event matches a
    message of its topic satisfying its predicate and binds its alias; a disjunction contributes both alternatives -/
def Event.matchAll (σ : TEnv) (m : Msg) : Event → List TEnv
  | .simple t a p =>
      if m.topic = t ∧ holds p σ m = true then
        [match a with | some x => (x, m) :: σ | none => σ]
      else []
  | .disj a b => Event.matchAll σ m a ++ Event.matchAll σ m b

def within (t0 t : Rat) : Option Rat → Prop
  | none => True
  | some T => t - t0 ≤ T

instance (t0 t : Rat) (b : Option Rat) : Decidable (within t0 t b) := by
  cases b <;> simp only [within] <;> infer_instance

/-- pattern satisfaction over a scope segment `seg` starting at time `t0` with activator bindings `σ` -/
def satPattern (σ : TEnv) (t0 : Rat) (seg : List Msg) (p : Pattern) : Prop :=
  match p.kind, p.trigger with
  | .absence, _ => ∀ m ∈ seg, within t0 m.time p.maxTime → p.behaviour.matchAll holds σ m = []
  | .existence, _ => ∃ m ∈ seg, within t0 m.time p.maxTime ∧ p.behaviour.matchAll holds σ m ≠ []
  | .response, some a =>
      ∀ pre m post, seg = pre ++ m :: post → ∀ σ' ∈ a.matchAll holds σ m,
        ∃ m' ∈ post, within m.time m'.time p.maxTime ∧ p.behaviour.matchAll holds σ' m' ≠ []
  | .requirement, some a =>
      ∀ pre m post, seg = pre ++ m :: post → ∀ σ' ∈ p.behaviour.matchAll holds σ m,
        ∃ m' ∈ pre, within m'.time m.time p.maxTime ∧ a.matchAll holds σ' m' ≠ []
  | .prevention, some a =>
      ∀ pre m post, seg = pre ++ m :: post → ∀ σ' ∈ a.matchAll holds σ m,
        ∀ m' ∈ post, within m.time m'.time p.maxTime → p.behaviour.matchAll holds σ' m' = []
  | _, none => True     -- ill-formed (rejected by the pattern constructor); irrelevant

/-- cut a message list at the first message matching the terminator -/
def cutAt (σ : TEnv) (q : Event) : List Msg → List Msg × List Msg
  | [] => ([], [])
  | m :: ms => if q.matchAll holds σ m ≠ [] then ([], m :: ms) else
      let (a, b) := cutAt σ q ms; (m :: a, b)

/-- scope segments: (bindings, start time, messages in scope). `reentrant` selects the reading of after–until:
    the scope opens once (first activator) or re-opens after every terminator. -/
def segmentsAfter (reentrant : Bool) (p : Event) (q : Option Event) : Nat → List Msg → List (TEnv × Rat × List Msg)
  | 0, _ => []
  | _, [] => []
  | fuel+1, m :: ms =>
    match p.matchAll holds [] m with
    | [] => segmentsAfter reentrant p q fuel ms
    | σs =>
      match q with
      | none => σs.map fun σ => (σ, m.time, ms)
      | some q =>
        σs.flatMap fun σ =>
          let (inside, rest) := cutAt holds σ q ms
          (σ, m.time, inside) :: (if reentrant then segmentsAfter true p (some q) fuel (rest.drop 1) else [])

def segments (reentrant : Bool) (s : Scope) (tr : List Msg) : List (TEnv × Rat × List Msg) :=
  match s.kind, s.activator, s.terminator with
  | .global, _, _ => [([], 0, tr)]
  | .until_, _, some q => [([], 0, (cutAt holds [] q tr).1)]
  | .after, some p, _ => segmentsAfter holds reentrant p none (tr.length + 1) tr
  | .afterUntil, some p, some q => segmentsAfter holds reentrant p (some q) (tr.length + 1) tr
  | _, _, _ => []

/-- a finite timed trace satisfies a property: the pattern holds in every scope segment -/
def sat (reentrant : Bool) (tr : List Msg) (p : Property) : Prop :=
  ∀ seg ∈ segments holds reentrant p.scope tr, satPattern holds seg.1 seg.2.1 seg.2.2 p.pattern

end
end Hpl
