import Hpl.Model.Build
/-! Declarative typing vocabulary of C03/C04/C05: inclusion of type sets, single base types, the well-typedness
    invariant `WT` (expression level) / `WTPred` (predicate level), and its executable decider `wtB` used to judge
    the implementation's ASTs (equivalence `wtB_iff` is proved in `Hpl/Props/C03.lean`). -/
namespace Hpl

def sub (a b : DataType) : Prop := a &&& b = a
instance (a b : DataType) : Decidable (sub a b) := by unfold sub; infer_instance
/-- a single base type: intersecting it with anything gives all or nothing -/
def Atomic (a : DataType) : Prop := a ≠ 0 ∧ ∀ t, a &&& t = 0 ∨ a &&& t = a


def isBase (t : DataType) : Bool := t == T.BOOL || t == T.NUMBER || t == T.STRING || t == T.ARRAY || t == T.RANGE || t == T.SET || t == T.MESSAGE


/-- every argument type set lies inside the parameter type the overload offers at that position -/
def ArgsInside (tys : List DataType) (s : Sig) : Prop := ∀ p ∈ List.zip tys (s.paramsFor tys.length), sub p.1 p.2

/-- the overload takes `n` arguments -/
def ArityOk (s : Sig) (n : Nat) : Prop := s.params.length ≤ n ∧ (n ≤ s.params.length ∨ s.variadic.isSome = true)
instance (s : Sig) (n : Nat) : Decidable (ArityOk s n) := by unfold ArityOk; infer_instance

/-! ## the invariant -/
mutual
/-- well-typedness of an expression tree (C03, expression level) -/
def WT : Expr → Prop
  | .lit t _ v => t = v.ty
  | .this t => t = T.MESSAGE
  | .var t _ => t ≠ 0 ∧ sub t T.ITEM
  | .set t vs => t = T.SET ∧ WTSet vs
  | .range t lo hi _ _ => t = T.RANGE ∧ WT lo ∧ WT hi ∧ sub lo.ty T.NUMBER ∧ sub hi.ty T.NUMBER
  | .quant t _ x d b => t = T.BOOL ∧ WT d ∧ WT b ∧ sub d.ty T.COMPOUND ∧ sub b.ty T.BOOL ∧
      (∀ v ∈ b.preorder, isVarNamed x v = true → v.ty &&& domainElemType d ≠ 0)
  | .un t op a => ∃ d, findUn op = some d ∧ t = d.res ∧ WT a ∧ sub a.ty d.param
  | .bin t op a b => ∃ d, findBin op = some d ∧ t = d.res ∧ WT a ∧ WT b ∧
      sub a.ty d.p1 ∧ sub b.ty d.p2 ∧ (d.p1 &&& d.p2 ≠ 0 → a.ty = b.ty)
  | .call t f args => ∃ d, findFun f = some d ∧ t = d.result ∧ WTList args ∧
      ∃ s ∈ d.overloads, ArityOk s args.tys.length ∧ ArgsInside args.tys s
  | .field t m _ => t ≠ 0 ∧ sub t T.ACCESS ∧ WT m ∧ sub m.ty T.MESSAGE
  | .index t a i => t ≠ 0 ∧ sub t T.ACCESS ∧ WT a ∧ WT i ∧ sub a.ty T.ARRAY ∧ sub i.ty T.NUMBER
def WTSet : ExprList → Prop
  | .nil => True
  | .cons e es => WT e ∧ sub e.ty T.PRIMITIVE ∧ WTSet es
def WTList : ExprList → Prop
  | .nil => True
  | .cons e es => WT e ∧ WTList es
end

/-- predicate level: the root is exactly boolean and all occurrences of one reference share a possible type -/
def WTPred : Pred → Prop
  | .expr e => WT e ∧ e.ty = T.BOOL ∧ refsOk e = true
  | _ => True


/-- every type set is within what the node's syntactic kind allows (`default_data_type`) -/
def kindDefault : Expr → DataType
  | .lit .. => T.PRIMITIVE | .this _ => T.MESSAGE | .var .. => T.ITEM | .set .. => T.SET | .range .. => T.RANGE
  | .quant .. => T.BOOL | .un .. | .bin .. | .call .. => T.ANY | .field .. | .index .. => T.ACCESS


/-! ### executable decider -/
def subB (a b : DataType) : Bool := a &&& b == a
def argsInsideB (tys : List DataType) (s : Sig) : Bool := (List.zip tys (s.paramsFor tys.length)).all (fun p => subB p.1 p.2)

mutual
def wtB : Expr → Bool
  | .lit t _ v => t == v.ty
  | .this t => t == T.MESSAGE
  | .var t _ => t != 0 && subB t T.ITEM
  | .set t vs => t == T.SET && wtSetB vs
  | .range t lo hi _ _ => t == T.RANGE && wtB lo && wtB hi && subB lo.ty T.NUMBER && subB hi.ty T.NUMBER
  | .quant t _ x d b => t == T.BOOL && wtB d && wtB b && subB d.ty T.COMPOUND && subB b.ty T.BOOL &&
      b.preorder.all (fun v => !isVarNamed x v || v.ty &&& domainElemType d != 0)
  | .un t op a => match findUn op with
      | some d => t == d.res && wtB a && subB a.ty d.param
      | none => false
  | .bin t op a b => match findBin op with
      | some d => t == d.res && wtB a && wtB b && subB a.ty d.p1 && subB b.ty d.p2 && (d.p1 &&& d.p2 == 0 || a.ty == b.ty)
      | none => false
  | .call t f args => match findFun f with
      | some d => t == d.result && wtListB args && d.overloads.any (fun s => decide (ArityOk s args.tys.length) && argsInsideB args.tys s)
      | none => false
  | .field t m _ => t != 0 && subB t T.ACCESS && wtB m && subB m.ty T.MESSAGE
  | .index t a i => t != 0 && subB t T.ACCESS && wtB a && wtB i && subB a.ty T.ARRAY && subB i.ty T.NUMBER
def wtSetB : ExprList → Bool
  | .nil => true
  | .cons e es => wtB e && subB e.ty T.PRIMITIVE && wtSetB es
def wtListB : ExprList → Bool
  | .nil => true
  | .cons e es => wtB e && wtListB es
end

def wtPredB : Pred → Bool
  | .expr e => wtB e && e.ty == T.BOOL && refsOk e
  | _ => true

/-- explanation only (not used by any theorem): the first node, in pre-order, whose own clause fails -/
def localOk (e : Expr) : Bool :=
  match e with
  | .lit t _ v => t == v.ty
  | .this t => t == T.MESSAGE
  | .var t _ => t != 0 && subB t T.ITEM
  | .set t vs => t == T.SET && vs.toList.all (fun v => subB v.ty T.PRIMITIVE)
  | .range t lo hi _ _ => t == T.RANGE && subB lo.ty T.NUMBER && subB hi.ty T.NUMBER
  | .quant t _ x d b => t == T.BOOL && subB d.ty T.COMPOUND && subB b.ty T.BOOL &&
      b.preorder.all (fun v => !isVarNamed x v || v.ty &&& domainElemType d != 0)
  | .un t op a => match findUn op with | some d => t == d.res && subB a.ty d.param | none => false
  | .bin t op a b => match findBin op with
      | some d => t == d.res && subB a.ty d.p1 && subB b.ty d.p2 && (d.p1 &&& d.p2 == 0 || a.ty == b.ty)
      | none => false
  | .call t f args => match findFun f with
      | some d => t == d.result && d.overloads.any (fun s => decide (ArityOk s args.tys.length) && argsInsideB args.tys s)
      | none => false
  | .field t m _ => t != 0 && subB t T.ACCESS && subB m.ty T.MESSAGE
  | .index t a i => t != 0 && subB t T.ACCESS && subB a.ty T.ARRAY && subB i.ty T.NUMBER

def firstIllTyped (e : Expr) : Option Expr := e.preorder.find? (fun n => !localOk n)

end Hpl
