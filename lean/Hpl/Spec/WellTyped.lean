import Hpl.Model.Build
import Hpl.Spec.Typing
import Hpl.Spec.Clash
/-!
# Spec: a term that is well typed under a concrete typing of its references (C04)

`ρ` gives every reference one concrete type, by printed form: field paths (`x`, `m.n.c`, `@A.xs[0]`) and variables
(`@A`, `@i`) — "every field given one concrete type". `WellTyped ρ r`: every operator, function, range, set, quantifier
and access is used according to its signature. `Rel ρ r e`: `e` is `r` decorated with type sets, each containing the
concrete type of its node (exactly it, where the head determines the type).
-/
namespace Hpl

mutual
/-- printed form of a syntax tree (= `Expr.print` of what `build` returns, `rel_print`) -/
def Raw.print : Raw → String
  | .lit tok _ => tok
  | .this => ""
  | .var x => "@" ++ x
  | .set vs => "{" ++ RawList.printSep vs ++ "}"
  | .range lo hi exLo exHi =>
      (if exLo then "![" else "[") ++ lo.print ++ " to " ++ hi.print ++ (if exHi then "]!" else "]")
  | .quant q x d b =>
      "(" ++ (match q with | .all => Gen.ALL_OPERATOR | .some => Gen.SOME_OPERATOR) ++ " " ++ x ++ " in " ++ d.print ++ ": " ++ b.print ++ ")"
  | .un op a => "(" ++ (if lastIsAlpha op then op ++ " " else op) ++ a.print ++ ")"
  | .bin op a b => "(" ++ a.print ++ " " ++ op ++ " " ++ b.print ++ ")"
  | .call f as => f ++ "(" ++ RawList.printSep as ++ ")"
  | .field m n => let s := m.print; if s == "" then n else s ++ "." ++ n
  | .index a i => a.print ++ "[" ++ i.print ++ "]"
def RawList.printSep : RawList → String
  | .nil => ""
  | .cons e .nil => e.print
  | .cons e es => e.print ++ ", " ++ RawList.printSep es
end

abbrev Typing := String → DataType

/-- the concrete type of a term: what its head determines, else what `ρ` says of the reference -/
def ctype (ρ : Typing) (r : Raw) : DataType := (intrinsic r).getD (ρ r.print)

def RawList.length : RawList → Nat
  | .nil => 0
  | .cons _ es => es.length + 1

def ctypes (ρ : Typing) : RawList → List DataType
  | .nil => []
  | .cons r rs => ctype ρ r :: ctypes ρ rs

mutual
/-- names of the variable occurrences / of the quantifiers of a term -/
def Raw.vars : Raw → List String
  | .lit .. | .this => []
  | .var x => [x]
  | .set vs => vs.vars
  | .range lo hi _ _ => lo.vars ++ hi.vars
  | .quant _ _ d b => d.vars ++ b.vars
  | .un _ a => a.vars
  | .bin _ a b => a.vars ++ b.vars
  | .call _ as => as.vars
  | .field m _ => m.vars
  | .index a i => a.vars ++ i.vars
def RawList.vars : RawList → List String
  | .nil => []
  | .cons e es => e.vars ++ es.vars
end

mutual
def Raw.binders : Raw → List String
  | .lit .. | .this | .var _ => []
  | .set vs => vs.binders
  | .range lo hi _ _ => lo.binders ++ hi.binders
  | .quant _ x d b => x :: (d.binders ++ b.binders)
  | .un _ a => a.binders
  | .bin _ a b => a.binders ++ b.binders
  | .call _ as => as.binders
  | .field m _ => m.binders
  | .index a i => a.binders ++ i.binders
def RawList.binders : RawList → List String
  | .nil => []
  | .cons e es => e.binders ++ es.binders
end

/-- the concrete type of the elements of a quantifier domain: the members of a set literal, numbers for a range
    literal; for an array reference whatever the schema says (any primitive type) -/
def DomainOK (ρ : Typing) (τx : DataType) : Raw → Prop
  | .set vs => vs ≠ .nil ∧ ∀ τ ∈ ctypes ρ vs, τ = τx
  | .range .. => τx = T.NUMBER
  | d => ctype ρ d = T.ARRAY

def isPrimBase (t : DataType) : Bool := t == T.BOOL || t == T.NUMBER || t == T.STRING

/-- pointwise: each argument's concrete type lies inside the parameter type offered to it -/
def argsInside : List DataType → List DataType → Prop
  | [], _ => True
  | a :: as, p :: ps => sub a p ∧ argsInside as ps
  | _ :: _, [] => False

mutual
/-- every operator, function, range, set, quantifier and access is used according to its signature -/
def WellTyped (ρ : Typing) : Raw → Prop
  | .lit .. | .this => True
  | .var x => ρ ("@" ++ x) ≠ 0 ∧ sub (ρ ("@" ++ x)) T.ITEM
  | .set vs => WellTypedL ρ vs ∧ ∀ τ ∈ ctypes ρ vs, sub τ T.PRIMITIVE
  | .range lo hi _ _ => WellTyped ρ lo ∧ WellTyped ρ hi ∧ ctype ρ lo = T.NUMBER ∧ ctype ρ hi = T.NUMBER
  | .quant _ x d b =>
      WellTyped ρ d ∧ WellTyped ρ b ∧ ctype ρ b = T.BOOL ∧
      sub (ctype ρ d) T.COMPOUND ∧ DomainOK ρ (ρ ("@" ++ x)) d ∧ isPrimBase (ρ ("@" ++ x)) = true ∧
      x ∉ d.vars ∧ x ∈ b.vars ∧ x ∉ b.binders
  | .un op a => ∃ d, findUn op = some d ∧ WellTyped ρ a ∧ sub (ctype ρ a) d.param
  | .bin op a b => ∃ d, findBin op = some d ∧ WellTyped ρ a ∧ WellTyped ρ b ∧
      sub (ctype ρ a) d.p1 ∧ sub (ctype ρ b) d.p2 ∧ (d.p1 &&& d.p2 ≠ 0 → ctype ρ a = ctype ρ b)
  | .call f args => ∃ d, findFun f = some d ∧ WellTypedL ρ args ∧
      ∃ s ∈ d.overloads, s.accepts (ctypes ρ args) = true ∧ argsInside (ctypes ρ args) (s.paramsFor args.length)
  | .field m n => WellTyped ρ m ∧ ctype ρ m = T.MESSAGE ∧
      ρ (Raw.print (.field m n)) ≠ 0 ∧ sub (ρ (Raw.print (.field m n))) T.ACCESS
  | .index a i => WellTyped ρ a ∧ WellTyped ρ i ∧ ctype ρ a = T.ARRAY ∧ ctype ρ i = T.NUMBER ∧
      ρ (Raw.print (.index a i)) ≠ 0 ∧ sub (ρ (Raw.print (.index a i))) T.ACCESS
def WellTypedL (ρ : Typing) : RawList → Prop
  | .nil => True
  | .cons r rs => WellTyped ρ r ∧ WellTypedL ρ rs
end

mutual
/-- `e` is `r` decorated with type sets that contain the concrete types -/
def Rel (ρ : Typing) : Raw → Expr → Prop
  | .lit tok v, e => e = .lit v.ty tok v
  | .this, e => e = .this T.MESSAGE
  | .var x, e => ∃ ty, e = .var ty x ∧ sub (ρ ("@" ++ x)) ty
  | .set vs, e => ∃ es, e = .set T.SET es ∧ RelL ρ vs es
  | .range lo hi a b, e => ∃ lo' hi', e = .range T.RANGE lo' hi' a b ∧ Rel ρ lo lo' ∧ Rel ρ hi hi'
  | .quant q x d b, e => ∃ d' b', e = .quant T.BOOL q x d' b' ∧ Rel ρ d d' ∧ Rel ρ b b'
  | .un op a, e => ∃ dd a', findUn op = some dd ∧ e = .un dd.res op a' ∧ Rel ρ a a'
  | .bin op a b, e => ∃ dd a' b', findBin op = some dd ∧ e = .bin dd.res op a' b' ∧ Rel ρ a a' ∧ Rel ρ b b'
  | .call f args, e => ∃ dd as, findFun f = some dd ∧ e = .call dd.result f as ∧ RelL ρ args as
  | .field m n, e => ∃ ty m', e = .field ty m' n ∧ sub (ρ (Raw.print (.field m n))) ty ∧ Rel ρ m m'
  | .index a i, e => ∃ ty a' i', e = .index ty a' i' ∧ sub (ρ (Raw.print (.index a i))) ty ∧ Rel ρ a a' ∧ Rel ρ i i'
def RelL (ρ : Typing) : RawList → ExprList → Prop
  | .nil, es => es = .nil
  | .cons r rs, es => ∃ e es', es = .cons e es' ∧ Rel ρ r e ∧ RelL ρ rs es'
end

end Hpl

namespace Hpl

/-! ### executable mirror of `WellTyped` (sound: `Props/C04.wellTypedB_sound`) -/

def domainOKB (ρ : Typing) (τx : DataType) : Raw → Bool
  | .set vs => (match vs with | .nil => false | _ => true) && (ctypes ρ vs).all (· == τx)
  | .range .. => τx == T.NUMBER
  | d => ctype ρ d == T.ARRAY

def argsWithinB : List DataType → List DataType → Bool
  | [], _ => true
  | a :: as, p :: ps => subB a p && argsWithinB as ps
  | _ :: _, [] => false

mutual
def wellTypedB (ρ : Typing) : Raw → Bool
  | .lit .. | .this => true
  | .var x => ρ ("@" ++ x) != 0 && subB (ρ ("@" ++ x)) T.ITEM
  | .set vs => wellTypedLB ρ vs && (ctypes ρ vs).all (subB · T.PRIMITIVE)
  | .range lo hi _ _ => wellTypedB ρ lo && wellTypedB ρ hi && ctype ρ lo == T.NUMBER && ctype ρ hi == T.NUMBER
  | .quant _ x d b =>
      wellTypedB ρ d && wellTypedB ρ b && ctype ρ b == T.BOOL && subB (ctype ρ d) T.COMPOUND &&
      domainOKB ρ (ρ ("@" ++ x)) d && isPrimBase (ρ ("@" ++ x)) &&
      !d.vars.contains x && b.vars.contains x && !b.binders.contains x
  | .un op a => match findUn op with
      | some d => wellTypedB ρ a && subB (ctype ρ a) d.param
      | none => false
  | .bin op a b => match findBin op with
      | some d => wellTypedB ρ a && wellTypedB ρ b && subB (ctype ρ a) d.p1 && subB (ctype ρ b) d.p2 &&
          (d.p1 &&& d.p2 == 0 || ctype ρ a == ctype ρ b)
      | none => false
  | .call f args => match findFun f with
      | some d => wellTypedLB ρ args &&
          d.overloads.any (fun s => s.accepts (ctypes ρ args) && argsWithinB (ctypes ρ args) (s.paramsFor args.length))
      | none => false
  | .field m n => wellTypedB ρ m && ctype ρ m == T.MESSAGE &&
      ρ (Raw.print (.field m n)) != 0 && subB (ρ (Raw.print (.field m n))) T.ACCESS
  | .index a i => wellTypedB ρ a && wellTypedB ρ i && ctype ρ a == T.ARRAY && ctype ρ i == T.NUMBER &&
      ρ (Raw.print (.index a i)) != 0 && subB (ρ (Raw.print (.index a i))) T.ACCESS
def wellTypedLB (ρ : Typing) : RawList → Bool
  | .nil => true
  | .cons r rs => wellTypedB ρ r && wellTypedLB ρ rs
end

end Hpl
