import Hpl.Wire.Sexp
import Hpl.Model.Ast
import Hpl.Model.Build
import Hpl.Model.BuildProp
import Hpl.Spec.Eval
import Hpl.Model.Schema
import Hpl.Model.Json
/-! Wire codec: AST values <-> S-expressions (DESIGN Appendix D). Driver-side only. -/
namespace Hpl
namespace Codec
open Sexp

def encRat (q : Rat) : List Sexp := [Sexp.ofInt q.num, Sexp.ofNat q.den]

def encVal : LitVal → Sexp
  | .bool b => .list [.atom "b", ofBool b]
  | .int n => .list [.atom "i", ofInt n]
  | .flt q => .list (.atom "f" :: encRat q)
  | .inf => .list [.atom "inf"]
  | .ninf => .list [.atom "ninf"]
  | .nan => .list [.atom "nan"]
  | .str s => .list [.atom "s", .str s]

def mkRatOf (n : Int) (d : Nat) : Rat := if d == 0 then 0 else (n : Rat) / (d : Rat)

def decVal : Sexp → Option LitVal
  | .list [.atom "b", x] => do let n ← x.natOf; pure (.bool (n != 0))
  | .list [.atom "i", x] => do let n ← x.intOf; pure (.int n)
  | .list [.atom "f", n, d] => do let n ← n.intOf; let d ← d.natOf; pure (.flt (mkRatOf n d))
  | .list [.atom "inf"] => some .inf
  | .list [.atom "ninf"] => some .ninf
  | .list [.atom "nan"] => some .nan
  | .list [.atom "s", .str s] => some (.str s)
  | _ => none

mutual
partial def encExpr : Expr → Sexp
  | .lit t k v => .list [.atom "lit", ofNat t, .str k, encVal v]
  | .this t => .list [.atom "this", ofNat t]
  | .var t n => .list [.atom "var", ofNat t, .str n]
  | .set t vs => .list (.atom "set" :: ofNat t :: encList vs)
  | .range t lo hi a b => .list [.atom "range", ofNat t, encExpr lo, encExpr hi, ofBool a, ofBool b]
  | .quant t q x d b => .list [.atom "quant", ofNat t, .atom (match q with | .all => "all" | .some => "some"), .str x, encExpr d, encExpr b]
  | .un t o a => .list [.atom "un", ofNat t, .str o, encExpr a]
  | .bin t o a b => .list [.atom "bin", ofNat t, .str o, encExpr a, encExpr b]
  | .call t f as => .list (.atom "call" :: ofNat t :: .str f :: encList as)
  | .field t m n => .list [.atom "field", ofNat t, encExpr m, .str n]
  | .index t a i => .list [.atom "index", ofNat t, encExpr a, encExpr i]
partial def encList : ExprList → List Sexp
  | .nil => []
  | .cons e es => encExpr e :: encList es
end

def boolOf (s : Sexp) : Option Bool := do let n ← s.natOf; pure (n != 0)

mutual
partial def decExpr : Sexp → Option Expr
  | .list [.atom "lit", t, .str k, v] => do pure (.lit (← t.natOf) k (← decVal v))
  | .list [.atom "this", t] => do pure (.this (← t.natOf))
  | .list [.atom "var", t, .str n] => do pure (.var (← t.natOf) n)
  | .list (.atom "set" :: t :: vs) => do pure (.set (← t.natOf) (← decList vs))
  | .list [.atom "range", t, lo, hi, a, b] => do
      pure (.range (← t.natOf) (← decExpr lo) (← decExpr hi) (← boolOf a) (← boolOf b))
  | .list [.atom "quant", t, .atom q, .str x, d, b] => do
      let q ← (if q == "all" then some Quant.all else if q == "some" then some Quant.some else none)
      pure (.quant (← t.natOf) q x (← decExpr d) (← decExpr b))
  | .list [.atom "un", t, .str o, a] => do pure (.un (← t.natOf) o (← decExpr a))
  | .list [.atom "bin", t, .str o, a, b] => do pure (.bin (← t.natOf) o (← decExpr a) (← decExpr b))
  | .list (.atom "call" :: t :: .str f :: as) => do pure (.call (← t.natOf) f (← decList as))
  | .list [.atom "field", t, m, .str n] => do pure (.field (← t.natOf) (← decExpr m) n)
  | .list [.atom "index", t, a, i] => do pure (.index (← t.natOf) (← decExpr a) (← decExpr i))
  | _ => none
partial def decList : List Sexp → Option ExprList
  | [] => some .nil
  | x :: xs => do pure (.cons (← decExpr x) (← decList xs))
end

def encPred : Pred → Sexp
  | .expr e => .list [.atom "pred", encExpr e]
  | .vtrue => .list [.atom "vtrue"]
  | .vfalse => .list [.atom "vfalse"]

def decPred : Sexp → Option Pred
  | .list [.atom "pred", e] => do pure (.expr (← decExpr e))
  | .list [.atom "vtrue"] => some .vtrue
  | .list [.atom "vfalse"] => some .vfalse
  | _ => none

partial def encEvent : Event → Sexp
  | .simple n a p => .list [.atom "ev", .str n, (match a with | some a => .str a | none => .atom "_"), encPred p]
  | .disj a b => .list [.atom "or", encEvent a, encEvent b]

partial def decEvent : Sexp → Option Event
  | .list [.atom "ev", .str n, a, p] => do
      let a ← (match a with | .str a => some (some a) | .atom "_" => some none | _ => none)
      pure (.simple n a (← decPred p))
  | .list [.atom "or", a, b] => do pure (.disj (← decEvent a) (← decEvent b))
  | _ => none

def encOptEvent : Option Event → Sexp
  | some e => encEvent e
  | none => .atom "_"

def decOptEvent : Sexp → Option (Option Event)
  | .atom "_" => some none
  | s => do pure (some (← decEvent s))

def scopeKindName : ScopeKind → String
  | .global => "global" | .afterUntil => "after_until" | .after => "after" | .until_ => "until"
def scopeKindOf : String → Option ScopeKind
  | "global" => some .global | "after_until" => some .afterUntil | "after" => some .after | "until" => some .until_ | _ => none
def patternKindName : PatternKind → String
  | .absence => "absence" | .existence => "existence" | .requirement => "requirement" | .response => "response" | .prevention => "prevention"
def patternKindOf : String → Option PatternKind
  | "absence" => some .absence | "existence" => some .existence | "requirement" => some .requirement
  | "response" => some .response | "prevention" => some .prevention | _ => none

def encTime (q : Rat) : Sexp := .list (.atom "q" :: encRat q)
def decTime : Sexp → Option Rat
  | .list [.atom "q", n, d] => do pure (mkRatOf (← n.intOf) (← d.natOf))
  | _ => none

def encScope (s : Scope) : Sexp := .list [.atom "scope", .atom (scopeKindName s.kind), encOptEvent s.activator, encOptEvent s.terminator]
def decScope : Sexp → Option Scope
  | .list [.atom "scope", .atom k, a, t] => do pure ⟨← scopeKindOf k, ← decOptEvent a, ← decOptEvent t⟩
  | _ => none

def encPattern (p : Pattern) : Sexp :=
  .list [.atom "pat", .atom (patternKindName p.kind), encEvent p.behaviour, encOptEvent p.trigger, encTime p.minTime,
         (match p.maxTime with | some t => encTime t | none => .atom "inf")]
def decPattern : Sexp → Option Pattern
  | .list [.atom "pat", .atom k, b, t, mn, mx] => do
      let mx ← (match mx with | .atom "inf" => some none | s => do pure (some (← decTime s)))
      pure ⟨← patternKindOf k, ← decEvent b, ← decOptEvent t, ← decTime mn, mx⟩
  | _ => none

def encMeta (m : List (String × String)) : Sexp := .list (.atom "meta" :: m.map (fun kv => .list [.str kv.1, .str kv.2]))
def decMeta : Sexp → Option (List (String × String))
  | .list (.atom "meta" :: kvs) => kvs.mapM (fun kv => match kv with | .list [.str k, .str v] => some (k, v) | _ => none)
  | _ => none

def encProperty (p : Property) : Sexp := .list [.atom "prop", encScope p.scope, encPattern p.pattern, encMeta p.metadata]
def decProperty : Sexp → Option Property
  | .list [.atom "prop", s, p, m] => do pure ⟨← decScope s, ← decPattern p, ← decMeta m⟩
  | _ => none


mutual
partial def decRaw : Sexp → Option Raw
  | .list [.atom "lit", .str k, v] => do pure (.lit k (← decVal v))
  | .list [.atom "this"] => some .this
  | .list [.atom "var", .str n] => some (.var n)
  | .list (.atom "set" :: vs) => do pure (.set (← decRawList vs))
  | .list [.atom "range", lo, hi, a, b] => do pure (.range (← decRaw lo) (← decRaw hi) (← boolOf a) (← boolOf b))
  | .list [.atom "quant", .atom q, .str x, d, b] => do
      let q ← (if q == "all" then some Quant.all else if q == "some" then some Quant.some else none)
      pure (.quant q x (← decRaw d) (← decRaw b))
  | .list [.atom "un", .str o, a] => do pure (.un o (← decRaw a))
  | .list [.atom "bin", .str o, a, b] => do pure (.bin o (← decRaw a) (← decRaw b))
  | .list (.atom "call" :: .str f :: as) => do pure (.call f (← decRawList as))
  | .list [.atom "field", m, .str n] => do pure (.field (← decRaw m) n)
  | .list [.atom "index", a, i] => do pure (.index (← decRaw a) (← decRaw i))
  | _ => none
partial def decRawList : List Sexp → Option RawList
  | [] => some .nil
  | x :: xs => do pure (.cons (← decRaw x) (← decRawList xs))
end

def decRawSimple : Sexp → Option RawSimple
  | .list [.atom "ev", .str n, a, p] => do
      let a ← (match a with | .str a => some (some a) | .atom "_" => some none | _ => none)
      let p ← (match p with | .atom "_" => some none | r => do pure (some (← decRaw r)))
      pure ⟨n, a, p⟩
  | _ => none

def decRawEvent : Sexp → Option RawEvent
  | .list (.atom "or" :: alts) => do pure (.disj (← alts.mapM decRawSimple))
  | s => do pure (.simple (← decRawSimple s))

def decOptRawEvent : Sexp → Option (Option RawEvent)
  | .atom "_" => some none
  | s => do pure (some (← decRawEvent s))

def decRawProperty : Sexp → Option RawProperty
  | .list [.atom "rprop", .list [.atom "scope", .atom sk, a, t], .list [.atom "pat", .atom pk, b, tr, mx], md] => do
      let mx ← (match mx with
        | .atom "inf" => some none
        | .list [.atom "q", n, d, .atom u] => do
            let u ← (if u == "s" then some TimeUnit.s else if u == "ms" then some TimeUnit.ms else none)
            pure (some (mkRatOf (← n.intOf) (← d.natOf), u))
        | _ => none)
      pure ⟨← scopeKindOf sk, ← decOptRawEvent a, ← decOptRawEvent t, ← patternKindOf pk, ← decRawEvent b, ← decOptRawEvent tr, mx, ← decMeta md⟩
  | _ => none

def encPrim : Prim → Sexp
  | .bool b => .list [.atom "vb", ofBool b]
  | .num q => .list (.atom "vn" :: encRat q)
  | .pinf => .list [.atom "vinf"]
  | .ninf => .list [.atom "vninf"]
  | .str s => .list [.atom "vs", .str s]

def decPrim : Sexp → Option Prim
  | .list [.atom "vb", b] => do pure (.bool (← boolOf b))
  | .list [.atom "vn", n, d] => do pure (.num (mkRatOf (← n.intOf) (← d.natOf)))
  | .list [.atom "vinf"] => some .pinf
  | .list [.atom "vninf"] => some .ninf
  | .list [.atom "vs", .str s] => some (.str s)
  | _ => none

partial def encValue : Value → Sexp
  | .prim p => encPrim p
  | .arr vs => .list (.atom "varr" :: vs.map encValue)
  | .msg fs => .list (.atom "vmsg" :: fs.map (fun kv => .list [.str kv.1, encValue kv.2]))
  | .set ps => .list (.atom "vset" :: ps.map encPrim)
  | .range lo hi a b => .list [.atom "vrange", encPrim lo, encPrim hi, ofBool a, ofBool b]

partial def decValue : Sexp → Option Value
  | .list (.atom "varr" :: vs) => do pure (.arr (← vs.mapM decValue))
  | .list (.atom "vmsg" :: fs) => do
      let kvs ← fs.mapM (fun kv => match kv with
        | .list [.str k, v] => do pure (k, ← decValue v)
        | _ => none)
      pure (.msg kvs)
  | .list (.atom "vset" :: ps) => do pure (.set (← ps.mapM decPrim))
  | .list [.atom "vrange", lo, hi, a, b] => do pure (.range (← decPrim lo) (← decPrim hi) (← boolOf a) (← boolOf b))
  | s => do pure (.prim (← decPrim s))

/-- `(env <this> ("x" v)*)` -/
def decEnv : Sexp → Option Env
  | .list (.atom "env" :: t :: vars) => do
      let kvs ← vars.mapM (fun kv => match kv with
        | .list [.str k, v] => do pure (k, ← decValue v)
        | _ => none)
      pure ⟨← decValue t, kvs⟩
  | _ => none

def encEvErr : EvErr → Sexp
  | .type => .list [.atom "everr", .atom "type"]
  | .unbound => .list [.atom "everr", .atom "unbound"]
  | .arith => .list [.atom "everr", .atom "arith"]
  | .domain => .list [.atom "everr", .atom "domain"]
  | .opaque => .list [.atom "everr", .atom "opaque"]

mutual
partial def encTok : TyTok → Sexp
  | .prim n t => .list [.atom "prim", .str n, ofNat t]
  | .arr n sub len => .list [.atom "arr", .str n, encTok sub, ofInt len]
  | .msg n fs cs => .list [.atom "msg", .str n, .list (encFields fs), .list (encFields cs)]
partial def encFields : FieldList → List Sexp
  | .nil => []
  | .cons n t rest => .list [.str n, encTok t] :: encFields rest
end

mutual
partial def decTok : Sexp → Option TyTok
  | .list [.atom "prim", .str n, t] => do pure (.prim n (← t.natOf))
  | .list [.atom "arr", .str n, sub, len] => do pure (.arr n (← decTok sub) (← len.intOf))
  | .list [.atom "msg", .str n, .list fs, .list cs] => do pure (.msg n (← decFields fs) (← decFields cs))
  | _ => none
partial def decFields : List Sexp → Option FieldList
  | [] => some .nil
  | .list [.str n, t] :: rest => do pure (.cons n (← decTok t) (← decFields rest))
  | _ => none
end

def decVarTypes : Sexp → Option VarTypes
  | .list xs => xs.mapM (fun x => match x with
      | .list [.str n, t] => do pure (n, ← decTok t)
      | _ => none)
  | _ => none

partial def encJson : Json → Sexp
  | .null => .list [.atom "null"]
  | .bool b => .list [.atom "b", ofBool b]
  | .int n => .list [.atom "i", ofInt n]
  | .num q => .list (.atom "f" :: encRat q)
  | .str s => .list [.atom "s", .str s]
  | .arr xs => .list (.atom "arr" :: xs.map encJson)
  | .obj kvs => .list (.atom "obj" :: kvs.map (fun kv => .list [.str kv.1, encJson kv.2]))

def encErr (e : Err) : Sexp :=
  match e with
  | .internal w => .list [.atom "err", .atom "internal", .str w]
  | e => .list [.atom "err", .atom e.name, .str ""]

def encM {α : Type} (enc : α → List Sexp) : M α → Sexp
  | .ok a => .list (.atom "ok" :: enc a)
  | .error e => encErr e

end Codec
end Hpl
