/-! S-expressions of the line protocol (one per line; strings JSON-escaped, ASCII only). Driver-side only:
    nothing here is used by a theorem. -/
namespace Hpl

inductive Sexp where
  | atom (s : String)
  | str (s : String)
  | list (xs : List Sexp)
deriving Repr, Inhabited, BEq

namespace Sexp

def hexDigit (n : Nat) : Char :=
  if n < 10 then Char.ofNat (48 + n) else Char.ofNat (87 + n)

def hex4 (n : Nat) : String :=
  String.ofList [hexDigit ((n / 4096) % 16), hexDigit ((n / 256) % 16), hexDigit ((n / 16) % 16), hexDigit (n % 16)]

/-- JSON escaping, ASCII only (code points above 0xFFFF as surrogate pairs, like `json.dumps`) -/
def escape (s : String) : String := Id.run do
  let mut out := "\""
  for c in s.toList do
    let n := c.toNat
    if c == '"' then out := out ++ "\\\""
    else if c == '\\' then out := out ++ "\\\\"
    else if c == '\n' then out := out ++ "\\n"
    else if c == '\r' then out := out ++ "\\r"
    else if c == '\t' then out := out ++ "\\t"
    else if n < 32 || n == 127 then out := out ++ "\\u" ++ hex4 n
    else if n < 127 then out := out.push c
    else if n < 0x10000 then out := out ++ "\\u" ++ hex4 n
    else
      let m := n - 0x10000
      out := out ++ "\\u" ++ hex4 (0xD800 + m / 1024) ++ "\\u" ++ hex4 (0xDC00 + m % 1024)
  return out ++ "\""

partial def toString : Sexp → String
  | .atom s => s
  | .str s => escape s
  | .list xs => "(" ++ " ".intercalate (xs.map toString) ++ ")"

instance : ToString Sexp := ⟨Sexp.toString⟩

def hexVal (c : Char) : Option Nat :=
  if '0' ≤ c ∧ c ≤ '9' then some (c.toNat - 48)
  else if 'a' ≤ c ∧ c ≤ 'f' then some (c.toNat - 87)
  else if 'A' ≤ c ∧ c ≤ 'F' then some (c.toNat - 55)
  else none

def hex4Val : List Char → Option (Nat × List Char)
  | a :: b :: c :: d :: rest => do
      let a ← hexVal a; let b ← hexVal b; let c ← hexVal c; let d ← hexVal d
      pure (a * 4096 + b * 256 + c * 16 + d, rest)
  | _ => none

/-- parse the body of a string literal (after the opening quote) -/
partial def parseStr (cs : List Char) (acc : String) : Option (String × List Char) :=
  match cs with
  | [] => none
  | '"' :: rest => some (acc, rest)
  | '\\' :: 'n' :: rest => parseStr rest (acc.push '\n')
  | '\\' :: 'r' :: rest => parseStr rest (acc.push '\r')
  | '\\' :: 't' :: rest => parseStr rest (acc.push '\t')
  | '\\' :: 'b' :: rest => parseStr rest (acc.push (Char.ofNat 8))
  | '\\' :: 'f' :: rest => parseStr rest (acc.push (Char.ofNat 12))
  | '\\' :: '/' :: rest => parseStr rest (acc.push '/')
  | '\\' :: '"' :: rest => parseStr rest (acc.push '"')
  | '\\' :: '\\' :: rest => parseStr rest (acc.push '\\')
  | '\\' :: 'u' :: rest =>
      match hex4Val rest with
      | none => none
      | some (n, rest) =>
        if 0xD800 ≤ n ∧ n < 0xDC00 then
          match rest with
          | '\\' :: 'u' :: rest2 =>
            match hex4Val rest2 with
            | some (m, rest3) =>
              if 0xDC00 ≤ m ∧ m < 0xE000 then
                parseStr rest3 (acc.push (Char.ofNat (0x10000 + (n - 0xD800) * 1024 + (m - 0xDC00))))
              else parseStr rest (acc.push (Char.ofNat 0xFFFD))
            | none => none
          | _ => parseStr rest (acc.push (Char.ofNat 0xFFFD))
        else if 0xDC00 ≤ n ∧ n < 0xE000 then parseStr rest (acc.push (Char.ofNat 0xFFFD))
        else parseStr rest (acc.push (Char.ofNat n))
  | c :: rest => parseStr rest (acc.push c)

def isDelim (c : Char) : Bool := c == ' ' || c == '(' || c == ')' || c == '"' || c == '\n' || c == '\t' || c == '\r'

mutual
partial def parseOne (cs : List Char) : Option (Sexp × List Char) :=
  match cs with
  | [] => none
  | ' ' :: rest | '\n' :: rest | '\t' :: rest | '\r' :: rest => parseOne rest
  | '(' :: rest => parseList rest []
  | ')' :: _ => none
  | '"' :: rest => do let (s, rest) ← parseStr rest ""; pure (.str s, rest)
  | _ =>
    let tok := cs.takeWhile (fun c => !isDelim c)
    some (.atom (String.ofList tok), cs.dropWhile (fun c => !isDelim c))
partial def parseList (cs : List Char) (acc : List Sexp) : Option (Sexp × List Char) :=
  match cs with
  | [] => none
  | ' ' :: rest | '\n' :: rest | '\t' :: rest | '\r' :: rest => parseList rest acc
  | ')' :: rest => some (.list acc.reverse, rest)
  | _ => do let (x, rest) ← parseOne cs; parseList rest (x :: acc)
end

def parse (s : String) : Option Sexp :=
  match parseOne s.toList with
  | some (x, rest) => if rest.all (fun c => c == ' ' || c == '\n' || c == '\r' || c == '\t') then some x else none
  | none => none

def natOf : Sexp → Option Nat
  | .atom s => s.toNat?
  | _ => none

def intOf : Sexp → Option Int
  | .atom s => s.toInt?
  | _ => none

def strOf : Sexp → Option String
  | .str s => some s
  | _ => none

def ofBool (b : Bool) : Sexp := .atom (if b then "1" else "0")
def ofNat (n : Nat) : Sexp := .atom (ToString.toString n)
def ofInt (n : Int) : Sexp := .atom (ToString.toString n)

end Sexp
end Hpl
