import Hpl.Wire.Sexp
import Hpl.Model.DataType
/-! Line-protocol driver: one S-expression request per line on stdin, one canonical answer per line on stdout. -/
open Hpl

def okS (xs : List Sexp) : Sexp := .list (.atom "ok" :: xs)
def errS (cls : String) (detail : String := "") : Sexp := .list [.atom "err", .atom cls, .str detail]

def handle (req : Sexp) : Sexp :=
  match req with
  | .list [.atom "cast", a, t] =>
    match a.natOf, t.natOf with
    | some a, some t =>
      match DataType.cast a t with
      | .ok c => okS [Sexp.ofNat c]
      | .error _ => errS "type"
    | _, _ => errS "protocol" "cast"
  | .list [.atom "canbe", a, t] =>
    match a.natOf, t.natOf with
    | some a, some t => okS [Sexp.ofBool (DataType.canBe a t)]
    | _, _ => errS "protocol" "canbe"
  | .list (.atom "union" :: ts) =>
    match ts.mapM Sexp.natOf with
    | some ts => okS [Sexp.ofNat (DataType.union ts)]
    | none => errS "protocol" "union"
  | .list [.atom "ping"] => okS [.atom "pong"]
  | _ => errS "protocol" "unknown request"

partial def loop (hin hout : IO.FS.Stream) : IO Unit := do
  let line ← hin.getLine
  if line.isEmpty then return ()
  let out := match Sexp.parse line with
    | some req => handle req
    | none => errS "protocol" "unparsable"
  hout.putStrLn (toString out)
  loop hin hout

def main : IO Unit := do
  let hin ← IO.getStdin
  let hout ← IO.getStdout
  loop hin hout
  hout.flush
