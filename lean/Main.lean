import Hpl.Wire.Sexp
import Hpl.Wire.Codec
import Hpl.Model.DataType
import Hpl.Model.Build
import Hpl.Model.Query
import Hpl.Model.Printer
/-! Line-protocol driver: one S-expression request per line on stdin, one canonical answer per line on stdout. -/
open Hpl
open Hpl.Codec

def okS (xs : List Sexp) : Sexp := .list (.atom "ok" :: xs)
def errS (cls : String) (detail : String := "") : Sexp := .list [.atom "err", .atom cls, .str detail]

def handle (req : Sexp) : Sexp :=
  match req with
  | .list [.atom "cast", a, t] =>
    match a.natOf, t.natOf with
    | some a, some t =>
      match DataType.cast a t with
      | .ok c => okS [Sexp.ofNat c]
      | .error _ => errS "type"
    | _, _ => errS "protocol" "cast"
  | .list [.atom "canbe", a, t] =>
    match a.natOf, t.natOf with
    | some a, some t => okS [Sexp.ofBool (DataType.canBe a t)]
    | _, _ => errS "protocol" "canbe"
  | .list (.atom "union" :: ts) =>
    match ts.mapM Sexp.natOf with
    | some ts => okS [Sexp.ofNat (DataType.union ts)]
    | none => errS "protocol" "union"
  | .list [.atom "build", r] =>
    match decRaw r with
    | some r => encM (fun e => [encExpr e]) (build r)
    | none => errS "protocol" "build"
  | .list [.atom "mkpred", r] =>
    match decRaw r with
    | some r => encM (fun p => [encPred p]) (build r >>= predFromExpr)
    | none => errS "protocol" "mkpred"
  | .list [.atom "print", e] =>
    match decExpr e with
    | some e => okS [.str e.print]
    | none => errS "protocol" "print"
  | .list (.atom "query" :: e :: names) =>
    match decExpr e, names.mapM Sexp.strOf with
    | some e, some names =>
      let refs := match e.externalRefs with
        | .ok rs => Sexp.list (.atom "refs" :: rs.map Sexp.str)
        | .error _ => Sexp.list [.atom "keyerror"]
      okS [refs, Sexp.ofBool e.containsSelf,
           .list (names.map (fun n => Sexp.ofBool (e.containsRef n))),
           .list (names.map (fun n => Sexp.ofBool (e.containsDef n))),
           .list (e.iterate.map encExpr)]
    | _, _ => errS "protocol" "query"
  | .list [.atom "mkprop", r] =>
    match decRawProperty r with
    | some r => encM (fun p => [encProperty p]) (buildProperty r)
    | none => errS "protocol" "mkprop"
  | .list (.atom "mkspec" :: rs) =>
    match rs.mapM decRawProperty with
    | some rs => encM (fun ps => ps.map encProperty) (buildSpec rs)
    | none => errS "protocol" "mkspec"
  | .list [.atom "ping"] => okS [.atom "pong"]
  | _ => errS "protocol" "unknown request"

partial def loop (hin hout : IO.FS.Stream) : IO Unit := do
  let line ← hin.getLine
  if line.isEmpty then return ()
  let out := match Sexp.parse line with
    | some req => handle req
    | none => errS "protocol" "unparsable"
  hout.putStrLn (toString out)
  loop hin hout

def main : IO Unit := do
  let hin ← IO.getStdin
  let hout ← IO.getStdout
  loop hin hout
  hout.flush
