import Hpl.Wire.Sexp
import Hpl.Wire.Codec
import Hpl.Model.DataType
import Hpl.Model.Build
import Hpl.Model.Query
import Hpl.Model.Printer
import Hpl.Spec.PrintChars
import Hpl.Spec.PrintCharsProp
import Hpl.Spec.Typing
import Hpl.Spec.Scoping
import Hpl.Model.Canon
import Hpl.Spec.Canonical
import Hpl.Spec.Eval
import Hpl.Spec.Shapes
import Hpl.Spec.Clash
import Hpl.Spec.InferTyping
import Hpl.Model.Rewrite.Split
import Hpl.Model.Rewrite.Refactor
import Hpl.Model.Rewrite.Simplify
import Hpl.Model.Parser
import Hpl.Spec.PrintToks
import Hpl.Spec.PrintToksProp
/-! Line-protocol driver: one S-expression request per line on stdin, one canonical answer per line on stdout. -/
open Hpl
open Hpl.Codec

def okS (xs : List Sexp) : Sexp := .list (.atom "ok" :: xs)
def errS (cls : String) (detail : String := "") : Sexp := .list [.atom "err", .atom cls, .str detail]

def handle (req : Sexp) : Sexp :=
  match req with
  | .list [.atom "cast", a, t] =>
    match a.natOf, t.natOf with
    | some a, some t =>
      match DataType.cast a t with
      | .ok c => okS [Sexp.ofNat c]
      | .error _ => errS "type"
    | _, _ => errS "protocol" "cast"
  | .list [.atom "canbe", a, t] =>
    match a.natOf, t.natOf with
    | some a, some t => okS [Sexp.ofBool (DataType.canBe a t)]
    | _, _ => errS "protocol" "canbe"
  | .list (.atom "union" :: ts) =>
    match ts.mapM Sexp.natOf with
    | some ts => okS [Sexp.ofNat (DataType.union ts)]
    | none => errS "protocol" "union"
  | .list [.atom "build", r] =>
    match decRaw r with
    | some r => encM (fun e => [encExpr e]) (build r)
    | none => errS "protocol" "build"
  | .list [.atom "refscheck", mt, pr] =>
    -- HplProperty.type_check_references(msg_types)
    match decVarTypes mt, decProperty pr with
    | some mt, some pr => encM (fun _ => []) (refsCheckProperty mt pr)
    | _, _ => errS "protocol" "refscheck"
  | .list [.atom "refspred", this, vars, pd] =>
    -- HplPredicate.type_check_references(this_msg, variables)
    match decTok this, decVarTypes vars, decPred pd with
    | some this, some vars, some pd => encM (fun _ => []) (refsCheckPred this vars pd)
    | _, _, _ => errS "protocol" "refspred"
  | .list [.atom "leaffields", t] =>
    match decTok t with
    | some t => okS ((leafFields t).map (fun p => .list [.str p.1, encTok p.2]))
    | none => errS "protocol" "leaffields"
  | .list [.atom "containsname", t, .str n] =>
    match decTok t with
    | some t => okS [Sexp.ofBool (containsName t n)]
    | none => errS "protocol" "containsname"
  | .list [.atom "gettypeof", t, .str n] =>
    match decTok t with
    | some t => encM (fun t' => [encTok t']) (getTypeOf t n)
    | none => errS "protocol" "gettypeof"
  | .list [.atom "mkarray", len] =>
    match len.intOf with
    | some len => encM (fun _ => []) (mkArray len)
    | none => errS "protocol" "mkarray"
  | .list [.atom "mkranged", ty, lo, hi] =>
    match ty.natOf, decTime lo, decTime hi with
    | some ty, some lo, some hi => encM (fun _ => []) (mkRanged ty lo hi)
    | _, _, _ => errS "protocol" "mkranged"
  | .list [.atom "wtunder", this, vars, r] =>
    -- does the term satisfy the hypothesis of C04 `build_complete` under the typing its schema induces?
    -- answer: (ok <wellTypedB> <root is boolean> <table single-valued>)
    match decTok this, decVarTypes vars, decRaw r with
    | some this, some vars, some r =>
      let ρ := inducedTyping this vars r
      okS [Sexp.ofBool (wellTypedB ρ r), Sexp.ofBool (ctype ρ r == T.BOOL), Sexp.ofBool (singleValued (collectTyping this vars [] r))]
    | _, _, _ => errS "protocol" "wtunder"
  | .list [.atom "cli", asProp, wantJson, input] =>
    -- hpl [-p] [-o json] ARG; `input` is the property text / the file's text, or _ when the file cannot be read
    match boolOf asProp, boolOf wantJson with
    | some asProp, some wantJson =>
      let inp : Option (Option String) := match input with | .str s => some (some s) | .atom "_" => some none | _ => none
      match inp with
      | some inp =>
        let r := cliMain asProp wantJson inp
        okS [Sexp.ofNat r.exit, match r.json with | some j => encJson j | none => .atom "_"]
      | none => errS "protocol" "cli input"
    | _, _ => errS "protocol" "cli"
  | .list [.atom "clash", r] =>
    -- does the definite-clash detector (Spec/Clash; sound for `build` by Props/C05) flag this raw term?
    match decRaw r with
    | some r => okS [Sexp.ofBool (hasClashB r)]
    | none => errS "protocol" "clash"
  | .list [.atom "mkpred", r] =>
    match decRaw r with
    | some r => encM (fun p => [encPred p]) (build r >>= predFromExpr)
    | none => errS "protocol" "mkpred"
  | .list [.atom "print", e] =>
    match decExpr e with
    | some e => okS [.str e.print]
    | none => errS "protocol" "print"
  | .list (.atom "query" :: e :: names) =>
    match decExpr e, names.mapM Sexp.strOf with
    | some e, some names =>
      let refs := match e.externalRefs with
        | .ok rs => Sexp.list (.atom "refs" :: rs.map Sexp.str)
        | .error _ => Sexp.list [.atom "keyerror"]
      okS [refs, Sexp.ofBool e.containsSelf,
           .list (names.map (fun n => Sexp.ofBool (e.containsRef n))),
           .list (names.map (fun n => Sexp.ofBool (e.containsDef n))),
           .list (e.iterate.map encExpr)]
    | _, _ => errS "protocol" "query"
  | .list [.atom "mkprop", r] =>
    match decRawProperty r with
    | some r => encM (fun p => [encProperty p]) (buildProperty r)
    | none => errS "protocol" "mkprop"
  | .list (.atom "mkspec" :: rs) =>
    match rs.mapM decRawProperty with
    | some rs => encM (fun ps => ps.map encProperty) (buildSpec rs)
    | none => errS "protocol" "mkspec"
  | .list (.atom "specquery" :: e :: names) =>
    -- the declarative side of C15: free variables and predicates over the pre-order listing
    match decExpr e, names.mapM Sexp.strOf with
    | some e, some names =>
      okS [Sexp.list (.atom "refs" :: e.freeVars.map Sexp.str), Sexp.ofBool (e.preorder.any isThis),
           .list (names.map (fun n => Sexp.ofBool (e.preorder.any (isVarNamed n)))),
           .list (names.map (fun n => Sexp.ofBool (e.preorder.any (bindsName n)))),
           .list (e.preorder.map encExpr)]
    | _, _ => errS "protocol" "specquery"
  | .list (.atom "evquery" :: e :: names) =>
    match decEvent e, names.mapM Sexp.strOf with
    | some e, some names =>
      let refs := match e.externalRefs with
        | .ok rs => Sexp.list (.atom "refs" :: rs.map Sexp.str)
        | .error _ => Sexp.list [.atom "keyerror"]
      okS [refs, Sexp.ofBool e.containsSelf, .list (names.map (fun n => Sexp.ofBool (e.containsRef n))),
           .list (e.aliases.map Sexp.str), .list (e.simpleEvents.map encEvent)]
    | _, _ => errS "protocol" "evquery"
  | .list (.atom "evspec" :: e :: names) =>
    match decEvent e, names.mapM Sexp.strOf with
    | some e, some names =>
      okS [Sexp.list (.atom "refs" :: e.freeRefs.map Sexp.str),
           .list (names.map (fun n => Sexp.ofBool (e.simpleEvents.any (fun s => match s with
              | .simple _ _ p => p.condition.preorder.any (isVarNamed n) | _ => false)))),
           .list ((e.simpleEvents.flatMap (fun s => match s with | .simple _ (some a) _ => [a] | _ => [])).map Sexp.str)]
    | _, _ => errS "protocol" "evspec"
  | .list [.atom "welltyped", x] =>
    -- spec decider of C03 on an implementation AST: (ok wt callArgsInside "first offending node")
    let judge (e : Expr) (root : Bool) : Sexp :=
      let bad := match firstIllTyped e with | some n => n.print | none => ""
      okS [Sexp.ofBool (if root then wtPredB (.expr e) else wtB e), Sexp.ofBool true, .str bad]
    match decExpr x with
    | some e => judge e false
    | none => match decPred x with
      | some (.expr e) => judge e true
      | some _ => okS [Sexp.ofBool true, Sexp.ofBool true, .str ""]
      | none => match decProperty x with
        | some p =>
          let evs := (p.scope.activator.toList ++ [p.pattern.behaviour] ++ p.pattern.trigger.toList ++ p.scope.terminator.toList).flatMap Event.simpleEvents
          let preds := evs.filterMap (fun e => match e with | .simple _ _ (.expr x) => some x | _ => none)
          okS [Sexp.ofBool (preds.all (fun e => wtPredB (.expr e))), Sexp.ofBool true,
               .str (match preds.findSome? firstIllTyped with | some n => n.print | none => "")]
        | none => errS "protocol" "welltyped"
  | .list [.atom "sanity", sc, pt] =>
    match decScope sc, decPattern pt with
    | some sc, some pt => encM (fun _ => []) (sanityCheck sc pt)
    | _, _ => errS "protocol" "sanity"
  | .list [.atom "wellscoped", sc, pt] =>
    match decScope sc, decPattern pt with
    | some sc, some pt => okS [Sexp.ofBool (wellScopedB sc pt)]
    | _, _ => errS "protocol" "wellscoped"
  | .list [.atom "mkdisj", a, b] =>
    match decEvent a, decEvent b with
    | some a, some b => encM (fun e => [encEvent e]) (mkDisj a b)
    | _, _ => errS "protocol" "mkdisj"
  | .list [.atom "canon", p] =>
    match decProperty p with
    | some p => encM (fun ps => ps.map encProperty) (canonical p)
    | none => errS "protocol" "canon"
  | .list [.atom "canonspec", p] =>
    match decProperty p with
    | some p => okS ((canonicalSpec p).map encProperty)
    | none => errS "protocol" "canonspec"
  | .list [.atom "splitand", x] =>
    match decExpr x with
    | some e => encM (fun es => es.map encExpr) (splitAnd e)
    | none => match decPred x with
      | some p => encM (fun es => es.map encExpr) (splitAndPred p)
      | none => errS "protocol" "splitand"
  | .list [.atom "refactor", x, .str alias] =>
    match decExpr x with
    | some e => encM (fun r => [encExpr r.1, encExpr r.2]) (refactorExpr e alias)
    | none => match decPred x with
      | some p => encM (fun r => [encPred r.1, encPred r.2]) (refactorPred p alias)
      | none => errS "protocol" "refactor"
  | .list [.atom "negate", x] =>
    match decPred x with
    | some p => encM (fun r => [encPred r]) p.negate
    | none => errS "protocol" "negate"
  | .list [.atom "join", x, y] =>
    match decPred x, decPred y with
    | some p, some q => encM (fun r => [encPred r]) (p.join q)
    | _, _ => errS "protocol" "join"
  | .list [.atom "thisvar", x, .str alias] =>
    match decExpr x with
    | some e => encM (fun r => [encExpr r]) (match e with | .this _ => .ok (.var T.ITEM alias) | _ => replaceThisWithVarE e alias)
    | none => match decPred x with
      | some p => encM (fun r => [encPred r]) (replaceThisWithVarP p alias)
      | none => errS "protocol" "thisvar"
  | .list [.atom "varthis", x, .str alias] =>
    match decExpr x with
    | some e => encM (fun r => [encExpr r]) (replaceVarWithThisE e alias)
    | none => match decPred x with
      | some p => encM (fun r => [encPred r]) (replaceVarWithThisP p alias)
      | none => errS "protocol" "varthis"
  | .list [.atom "mkevent", .str n, a, p] =>
    match decPred p with
    | some p => encM (fun e => [encEvent e]) (mkSimpleEvent n (match a with | .str a => some a | _ => none) p)
    | none => errS "protocol" "mkevent"
  | .list (.atom "eval" :: env :: xs) =>
    -- spec evaluator: one environment, several expressions / predicates; opaque functions refuse (no table given)
    match decEnv env with
    | some ρ =>
      let opq : Opaque := fun _ _ => .error .opaque
      let one (x : Sexp) : Sexp :=
        match decExpr x with
        | some e => (match eval opq ρ e with | .ok v => .list [.atom "ok", encValue v] | .error er => encEvErr er)
        | none => match decPred x with
          | some p => (match evalPred opq ρ p with | .ok b => .list [.atom "ok", encValue (Value.bool b)] | .error er => encEvErr er)
          | none => errS "protocol" "eval item"
      okS (xs.map one)
    | none => errS "protocol" "eval env"
  | .list (.atom "shapes" :: xs) =>
    -- per expression: indivisible? boolean-typed? free variables
    match xs.mapM decExpr with
    | some es => okS (es.map (fun e => .list [Sexp.ofBool (indivisible e), Sexp.ofBool (e.ty &&& T.BOOL != 0), .list (e.freeVars.map Sexp.str)]))
    | none => errS "protocol" "shapes"
  | .list [.atom "simplify", x] =>
    match decExpr x with
    | some e => encM (fun r => [encExpr r]) (simplifyExpr e)
    | none => match decPred x with
      | some p => encM (fun r => [encPred r]) (simplifyPred p)
      | none => errS "protocol" "simplify"
  | .list [.atom "parse", .atom entry, .str text] =>
    if entry == "expression" then encM (fun e => [encExpr e]) (parseExpression text)
    else if entry == "predicate" then encM (fun p => [encPred p]) (parsePredicate text)
    else if entry == "property" then encM (fun p => [encProperty p]) (parseProperty text)
    else if entry == "specification" then encM (fun ps => ps.map encProperty) (parseSpecification text)
    else errS "protocol" "parse entry"
  | .list [.atom "rtcheck", .atom entry, .str text] =>
    -- the hypotheses and the token-level reading of `parse_toks_roundtrip` (Props/C06b) on a concrete text: is the parser's
    -- tree `printable`; does the lexer make `Raw.toks` of the printed form (kind and text of every token; word tokens not
    -- glued to a preceding word character); does the parser read `Raw.toks` back to the tree
    let key := tokKey      -- the key of `renders_sim` / `roundtrip_of_scanned` (Props/C01c)
    -- plus the decidable hypothesis of the text-level theorems (`print_parse_roundtrip_dec`, `pred_print_parse_roundtrip`, Props/C06g-h):
    -- every literal token text and variable name of the tree is scanned completely as one token (`Raw.lexOkB`), and the model
    -- printer's text is `Raw.chars` (a theorem, `print_chars`; evaluated here as a cross-check of the definitions)
    let check (r : Raw) (e : Expr) (printed : Except LexErr (List Tok)) : Sexp :=
      let toksEq := match printed with | .ok ts => ts.map key == r.toks.map key | .error _ => false
      let back := match parseExpressionToks r.toks with | .ok r' => (match build r, build r' with | .ok e, .ok e' => e == e' | _, _ => false) | .error _ => false
      -- `goodNames`: the hypothesis of `parse_print_parse` (Props/C06m) - with it, `printable` is a theorem for every parser output
      okS [Sexp.ofBool r.printable, Sexp.ofBool toksEq, Sexp.ofBool back, Sexp.ofBool r.lexOkB, Sexp.ofBool (String.ofList r.chars == e.print),
           Sexp.ofBool r.goodNames]
    if entry == "expression" then
      match lexExpr text with
      | .error _ => errS "syntax"
      | .ok ts => match parseExpressionToks ts with
        | .error _ => errS "syntax"
        | .ok r => match build r with
          | .ok e => check r e (lexExpr e.print)
          | .error _ => errS "build"
    else if entry == "predicate" then
      match lex text with
      | .error _ => errS "syntax"
      | .ok ts => match parsePredicateToks ts with
        | .error _ => errS "syntax"
        | .ok r => match build r with
          | .ok e => check r e (lexExpr e.print)
          | .error _ => errS "build"
    else if entry == "property" then
      -- property level (Props/C06c parse_property_toks_roundtrip): `fmt` is the spelling of the time bound in this very text
      match lex text with
      | .error _ => errS "syntax"
      | .ok ts => match parsePropertyToks ts with
        | .error _ => errS "syntax"
        | .ok r =>
          let numTok : String := match ts.find? (fun t => t.kind == TokKind.num && (ts.any (fun w => isKw w "within"))) with
            | some _ => (match (ts.dropWhile (fun t => !isKw t "within")) with | _ :: n :: _ => n.text | _ => "0")
            | none => "0"
          let fmt : Rat → String := fun _ => numTok
          let toksEq := ts.map key == (r.toks fmt).map key
          let back := match parsePropertyToks (r.toks fmt), buildProperty r with
            | .ok r', .ok p => (match buildProperty r' with | .ok p' => p == p' | .error _ => false)
            | _, _ => false
          -- text level (Props/C06k parse_printed_property): the decidable hypotheses, and that the text is `RawProperty.chars` of its own tree
          okS [Sexp.ofBool (r.printable fmt), Sexp.ofBool toksEq, Sexp.ofBool back, Sexp.ofBool (r.lexOkB fmt),
               .str (String.ofList (r.chars fmt))]
    else errS "protocol" "rtcheck entry"
  | .list [.atom "printany", x] =>
    let fmt : Rat → String := fun q => match floatRepr q with | some s => s | none => "<float>"
    match decExpr x with
    | some e => okS [.str e.print]
    | none => match decPred x with
      | some p => okS [.str p.print]
      | none => match decProperty x with
        | some p => okS [.str (p.print fmt)]
        | none => match x with
          | .list (.atom "spec" :: ps) => (match ps.mapM decProperty with | some ps => okS [.str (printSpec fmt ps)] | none => errS "protocol" "printany")
          | _ => errS "protocol" "printany"
  | .list [.atom "nodeiter", x] =>
    -- `iterate()` of a property: the tags of the visited nodes in order (model of the loop of base.py over `children()`)
    match decProperty x with
    | some p => okS ((Node.prop p).iterate.map (fun n => Sexp.atom n.tag))
    | none => errS "protocol" "nodeiter"
  | .list [.atom "ping"] => okS [.atom "pong"]
  | _ => errS "protocol" "unknown request"

partial def loop (hin hout : IO.FS.Stream) : IO Unit := do
  let line ← hin.getLine
  if line.isEmpty then return ()
  let out := match Sexp.parse line with
    | some req => handle req
    | none => errS "protocol" "unparsable"
  hout.putStrLn (toString out)
  loop hin hout

def main : IO Unit := do
  let hin ← IO.getStdin
  let hout ← IO.getStdout
  loop hin hout
  hout.flush
